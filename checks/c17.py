"""C17 -- version edits (and the other metadata codecs: varints, write batches,
internal keys / separators, file names) survive encode then decode unchanged.
Theorems: coq/theories/Properties_C17.v (over Edit.v / Batch.v / IKey.v / Filename.v).
Tie: K1 byte-exact differential of lcdb's codecs against the extracted model on a
structured mostly-valid stream and a separate malformed stream, plus property
oracles evaluated on the implementation's own outputs with an independent Python
encoder/decoder of the standard layouts (checks/metagen.py).
MANIFEST replay and CURRENT atomicity (the rest of C17's text) are decided elsewhere."""
import os, sys, json
import vlib
from k1util import *
import metagen as G

def run(rep, tier, seed):
    rng = vlib.Rng(seed)
    pr = vlib.coq_check('C17')
    pr2 = vlib.coq_check('C17b')      # CURRENT always names a complete MANIFEST (record-level crash model, FsProofs.v)
    pr['theorems'] = pr['theorems'] + pr2['theorems']; pr['ok'] = pr['ok'] and pr2['ok']; pr['closed_count'] = pr.get('closed_count', 0) + pr2.get('closed_count', 0)
    pr['axioms'] = sorted(set(pr['axioms']) | set(pr2['axioms'])); pr['log'] += pr2['log']; pr['file'] += ' + coq/theories/Properties_C17b.v'
    rep.add_proof(pr)
    if not pr['ok']:
        rep.violation({'kind': 'proof-broken', 'theorems': pr['theorems'], 'log': pr['log'][-3000:],
                       'forbidden': pr['forbidden'], 'own_axioms': pr['own_axioms']}, suffix='no-failing-input-found')
    out = vlib.scratch_dir()
    k1 = vlib.build_k1(out, 'nothread')
    model = vlib.ensure_model()
    hist = {}
    nviol = [0]

    def both(cases, what):
        """cases: [(line, meta)].  Returns the implementation's output lines."""
        lines = [c[0] for c in cases]
        c = vlib.run_lines(k1, lines, shards=4)
        m = vlib.run_lines(model, lines, shards=vlib.NCPU)
        rep.evaluated(len(lines))
        for (_, meta) in cases:
            k = what + ':' + meta['kind']; hist[k] = hist.get(k, 0) + 1
        vlib.diff_cases(rep, lines, c, m, what)
        return c

    def oracle(ok, kind, line, got, expected=None):
        if ok:
            return
        nviol[0] += 1
        if nviol[0] <= 5:
            rep.violation({'kind': 'oracle-' + kind, 'case': line[:20000], 'implementation': got[:20000],
                           'expected': (expected if expected is None else str(expected)[:20000])})

    def skip(o):
        return o.startswith('CRASH') or o.startswith('EXC')

    # ------------------------------------------------------------ stage 1
    s1 = []
    s1 += G.varint_cases(rng.fork(), tier)
    s1 += G.filename_cases(rng.fork(), tier)
    s1 += G.key_cases(rng.fork(), tier)
    bcases = G.batch_cases(rng.fork(), tier)
    ecases = G.edit_build_cases(rng.fork(), tier)
    s1 += bcases + ecases
    s1 += G.edit_garbage_cases(rng.fork(), tier)
    shuffle(rng.fork(), s1)          # spread the expensive cases over the shards
    c1 = both(s1, 's1')

    built_batches = []; built_edits = []
    for (line, m), o in zip(s1, c1):
        if skip(o):
            continue          # reported by the differential
        k = m['kind']
        if k == 'vwrite':
            oracle(o == hx(G.enc_varint(m['v'])), k, line, o)
        elif k == 'vsize':
            oracle(o == '%x' % len(G.enc_varint(m['v'])), k, line, o)
        elif k == 'vread':
            rep.nontrivial(('varint', m['w'], m['v']))
            oracle(o == 'ok %x %s' % (m['v'], hx(m['rest'])), k, line, o)
        elif k == 'vread_any':
            r = G.dec_varint(m['b'], 0, m['w'])
            exp = 'fail' if r is None else 'ok %x %s' % (r[0], hx(m['b'][r[1]:]))
            oracle(o == exp, k, line, o, exp)
        elif k == 'make_name':
            oracle(o == hx(G.make_name(m['k'], m['n'])), k, line, o)
        elif k == 'parse_made':
            rep.nontrivial(('name', m['k'], m['n']))
            exp = '%x %x' % (G.KIND_TYPE[m['k']], m['n'] if m['k'] < 5 else 0)
            oracle(o == exp, k, line, o, exp)
        elif k == 'parse_filename':
            r = G.parse_filename(m['name'])
            exp = 'none' if r is None else '%x %x' % r
            oracle(o == exp, k, line, o, exp)
        elif k == 'ucmp':
            a, b = m['a'], m['b']
            oracle(o == str((a > b) - (a < b)), k, line, o)
        elif k == 'sep':
            a, b = m['a'], m['b']; s = unhx(o)
            rep.nontrivial(('sep', a, b))
            oracle(s == G.bytes_sep(a, b) and (not a < b or (a <= s < b)) and len(s) <= len(a), k, line, o)
        elif k == 'succ':
            s = unhx(o)
            oracle(s == G.bytes_succ(m['a']) and m['a'] <= s and len(s) <= len(m['a']), k, line, o)
        elif k == 'ikey_encode':
            oracle(o == hx(G.ikey(m['u'], m['s'], m['t'])), k, line, o)
        elif k == 'ikey_parse_ok':
            oracle(o == '%s %x %x' % (hx(m['u']), m['s'], m['t']), k, line, o)
        elif k == 'ikey_parse_any':
            b = m['b']
            if len(b) < 8 or b[-8] > 1: exp = 'fail'
            else: exp = '%s %x %x' % (hx(b[:-8]), int.from_bytes(b[-7:], 'little'), b[-8])
            oracle(o == exp, k, line, o, exp)
        elif k == 'ikey_cmp':
            oracle(o == str(G.ikey_cmp(m['a'], m['b'])), k, line, o)
        elif k == 'isep':
            a, b = m['a'], m['b']; s = unhx(o)
            rep.nontrivial(('isep', a, b))
            ok = len(s) >= 8 and len(s) <= len(a)
            if ok and G.ikey_cmp(a, b) < 0:
                ok = G.ikey_cmp(a, s) <= 0 and G.ikey_cmp(s, b) < 0
            oracle(ok, k, line, o)
        elif k == 'isucc':
            s = unhx(o)
            oracle(len(s) >= 8 and len(s) <= len(m['a']) and G.ikey_cmp(m['a'], s) <= 0, k, line, o)
        elif k == 'lkey':
            u = m['u']; ik = G.ikey(u, m['s'], 1)
            exp = '%s %s %s' % (hx(G.enc_varint(len(u) + 8) + ik), hx(ik), hx(u))
            oracle(o == exp, k, line, o, exp)
        elif k == 'batch_build':
            exp = G.batch_encode(m['seq'], m['ops'])
            oracle(o == hx(exp), k, line, o)
            built_batches.append((m, unhx(o)))
        elif k == 'edit_build':
            e = G.canon_edit(m['items'])
            rep.nontrivial(('edit', line))
            oracle(o == hx(G.encode_edit(e)), 'edit-layout', line, o)
            built_edits.append((m, unhx(o)))
        elif k == 'edit_build_dump':
            exp = G.dump_edit(G.canon_edit(m['items']))
            oracle(o == exp, k, line, o, exp)
        elif k in ('import_garbage', 'roundtrip_garbage'):
            check_import(oracle, k, line, o)
    for i in (len(ecases) // 3, len(ecases) // 2):
        rep.sample({'case': ecases[i][0]})

    # ------------------------------------------------------------ stage 2 (derived from the implementation's bytes)
    s2 = G.batch_followups(rng.fork(), tier, built_batches) + G.edit_followups(rng.fork(), tier, built_edits)
    shuffle(rng.fork(), s2)
    c2 = both(s2, 's2')
    for (line, m), o in zip(s2, c2):
        if skip(o):
            continue
        k = m['kind']
        if k == 'iter_built':
            rep.nontrivial(('batch', len(m['img']), len(m['ops'])))
            exp = 'ok ' + G.ops_arg(m['ops'])
            oracle(o == exp, k, line, o, exp)
        elif k == 'hdr_built':
            oracle(o == '%x %x' % (m['seq'], m['n']), k, line, o)
        elif k in ('iter_cut', 'iter_count', 'iter_alter', 'iter_tail', 'iter_garbage'):
            okk, ops = G.batch_decode(unhx(line.split(' ')[1]))
            exp = ('ok ' if okk else 'corrupt ') + G.ops_arg(ops)
            oracle(o == exp, k, line, o, exp)
        elif k == 'setseq':
            oracle(o != 'short' and unhx(o)[8:] == m['img'][8:] and len(unhx(o)) == len(m['img']), k, line, o)
        elif k == 'append':
            res = unhx(o)
            okk, ops = G.batch_decode(res)
            oracle(okk and ops == m['a']['ops'] + m['b']['ops'] and res[:8] == m['ia'][:8], k, line, o)
        elif k == 'append_wrap':
            res = unhx(o)
            ca = int.from_bytes(m['ia'][8:12], 'little'); cb = int.from_bytes(m['ib'][8:12], 'little')
            oracle(res == m['ia'][:8] + ((ca + cb) & G.M32).to_bytes(4, 'little') + m['ia'][12:] + m['ib'][12:], k, line, o)
        elif k == 'import_built':
            rep.nontrivial(('edit-import', len(m['enc']), line[:200]))
            exp = G.dump_edit(m['edit']) if m['valid'] else 'fail'
            oracle(o == exp, 'import-export-identity', line, o, exp)
        elif k == 'roundtrip_built':
            exp = hx(m['enc']) if m['valid'] else 'fail'
            oracle(o == exp, 'export-import-export', line, o, exp)
        elif k.startswith('import_') or k.startswith('roundtrip_'):
            check_import(oracle, k, line, o)

    manifest_replay_segment(rep, tier, seed)
    # CURRENT must name a complete MANIFEST also when installing a version fails (every MANIFEST append/fsync and
    # directory fsync fails once; a fault-free reopen must then succeed)
    import k3check
    k3check.failed_install_segment(rep, tier, seed, label='current-vs-manifest-after-failed-install')
    # CURRENT names a complete MANIFEST in every crash image: the corpus histories (open, writes, two MANIFEST roll-overs)
    # crashed at EVERY syscall boundary, process-crash and minimal power-loss images; the real open must succeed
    k3check.run_crash(rep, 'C17', tier, seed, ['written', 'min'], 0 if tier == 'quick' else 20, 30, 100000, [{'write_buffer': 65536, 'reuse_logs': 0}])
    rep.cov['rule'] = ('stage 1: varint32/64 write/size/read at every 7-bit boundary, truncated and over-long encodings; file names from '
                       'every constructor at boundary numbers, mutated and overflowing numbers; user/internal key comparisons, separators, '
                       'successors, lookup keys; batches built through the C API; version edits built through the C API (each field '
                       'present/absent, boundary values, every level, arbitrary keys, many files) plus a malformed stream (every tag, '
                       'levels 0..9, over-long varints, short keys, random bytes).  stage 2, on the bytes the implementation produced: '
                       'import and export-import-export of every edit, every truncation offset, tag/level/varint alterations; iterate / '
                       'header / append / truncations / count and tag alterations of every batch.  distinct_nontrivial counts distinct '
                       'valid edits, batches, names, key pairs and varint values whose decode(encode x) = x was evaluated on the implementation')
    rep.cov['input_distribution'] = hist
    rep.cov['traces_validated_against_impl'] = len(s1) + len(s2)
    rep.cov['oracle_failures'] = nviol[0]
    rep.assumptions += ['internal-key comparator checked with the bytewise user comparator only (custom comparators are user code)',
                        'batch iterate compares found and count as C ints; the model compares naturals (equal for fewer than 2^31 records)',
                        'independent decoder: checks/metagen.py (Python, written from the LevelDB format description)']

def shuffle(rng, l):
    for i in range(len(l) - 1, 0, -1):
        j = rng.below(i + 1); l[i], l[j] = l[j], l[i]

def check_import(oracle, k, line, o):
    e = G.decode_edit(unhx(line.split(' ')[1]))
    if k.startswith('import'):
        exp = 'fail' if e is None else G.dump_edit(e)
    else:
        exp = 'fail' if e is None else hx(G.encode_edit(e))
    oracle(o == exp, 'independent-decoder', line, o, exp)

def manifest_replay_segment(rep, tier, seed):
    """Replaying a MANIFEST reproduces the layout: clean reopen cycles (incl. MANIFEST reuse growing past a 32 KiB block
    boundary, data in the deepest level) must succeed and report the same layout as before the close."""
    import k2check, histgen
    k2check.run_k2(rep, 'C17', tier, seed, 'c14', 2 if tier == 'quick' else 40, 60, extra_histories=[histgen.corpus_histories()[i] for i in (3, 4, -1)])

def replay(rep, path):
    r = json.load(open(path))
    out = vlib.scratch_dir(); k1 = vlib.build_k1(out); model = vlib.ensure_model()
    c = vlib.run_lines(k1, [r['case']]); m = vlib.run_lines(model, [r['case']])
    print('implementation:', c[0][:300]); print('model         :', m[0][:300])
    if r.get('expected') is not None:
        print('expected      :', str(r['expected'])[:300])
        return 0 if (c == m and c[0] == r['expected']) else 1
    return 0 if c == m else 1
