"""extra_memtable -- K1 differential of lcdb's skiplist (src/skiplist.c, with the PRNG of
src/util/random.c) and memtable (src/memtable.c) against the extracted models
(coq/theories/Skiplist.v, Memtable.v; commands `skiplist` and `memtable`, formats in
harness/k1_skiplist.h).
skiplist: the real ldb_skiplist_t (arena, bytewise comparator over length-prefixed keys),
re-seeded PRNG; compared: the height of every node and every level chain as read from the C
structure (white box), max_height, and an iterator script (first/last/seek/next/prev).
memtable: ldb_memtable_add of (seq, type, key, value) under three user comparators
(bytewise, reverse, case-insensitive), then ldb_memtable_get for (key, seq) pairs and a
memtable-iterator script.
On top of the differentials two independent oracles are evaluated on the implementation's
own output: level 0 lists the inserted keys in sorted order / every iterator step is the
step in the sorted list; every get returns the newest entry with sequence <= the read
sequence (value / deleted / nothing) computed from the add list in Python."""
import bisect
import vlib
from k1util import hx, unhx

SEEDS = ['deadbeef', 'deadbeef', 'deadbeef', '0', '1', '7fffffff', 'ffffffff', '80000000', '2', '12345']

def gen_keys(rng, n):
    style = rng.below(4)
    keys = []; seen = set()
    tries = 0
    while len(keys) < n and tries < 20 * n + 50:
        tries += 1
        if style == 0:                       # dense small alphabet, short
            k = bytes(rng.choice(b'ab\x00\xff') for _ in range(rng.range(0, 5)))
        elif style == 1:                     # 8 bytes and longer (internal-key sized)
            k = rng.bytes(rng.range(8, 14))
        elif style == 2:                     # common prefixes, occasionally > 127 bytes (2-byte length prefix)
            k = b'pre' * rng.choice([0, 1, 1, 2, 50]) + rng.bytes(rng.range(0, 3))
        else:
            k = rng.bytes(rng.range(0, 3))
        if k not in seen:
            seen.add(k); keys.append(k)
    return keys

def gen_script(rng, keys, n, mk=lambda k: k):
    ops = []
    for _ in range(n):
        r = rng.below(10)
        if r < 1: ops.append('F')
        elif r < 2: ops.append('L')
        elif r < 5: ops.append('N')
        elif r < 8: ops.append('P')
        else:
            if keys and rng.chance(2, 3):
                k = rng.choice(keys)
                if rng.chance(1, 3) and k: k = k[:-1] + bytes([(k[-1] + rng.choice([1, 255])) & 255])
                elif rng.chance(1, 4): k = k + b'\x00'
            else:
                k = rng.bytes(rng.range(0, 9))
            ops.append('S' + hx(mk(k)))
    return ops

def skiplist_case(rng, tier):
    n = rng.choice([0, 1, 2, 3, 5, 8, 13, 30, 60, 120 if tier == 'quick' else 300])
    keys = gen_keys(rng, n)
    ops = gen_script(rng, keys, rng.range(0, 40))
    seed = rng.choice(SEEDS) if rng.chance(3, 4) else '%x' % rng.below(1 << 32)
    line = 'skiplist %s %s %s' % (seed, ','.join(hx(k) for k in keys) or '.', ','.join(ops) or '.')
    return line, ('sl', keys, ops)

def skiplist_oracle(keys, ops, out):
    parts = out.split(' ')
    if len(parts) != 4: return 'bad output'
    hs, maxh, levels, vis = parts
    order = sorted(range(len(keys)), key=lambda i: keys[i])
    lv = [[] if l == '.' else [int(x, 16) - 1 for x in l.split(',')] for l in levels.split('/')]
    if lv[0] != order: return 'level 0 is not the sorted key list'
    heights = [] if hs == '.' else [int(c, 16) for c in hs]
    if len(heights) != len(keys) or any(h < 1 or h > 12 for h in heights): return 'bad heights'
    if int(maxh, 16) != max([1] + heights): return 'max_height is not the largest height'
    for l, chain in enumerate(lv):
        if chain != [i for i in order if heights[i] > l]: return 'level %d is not the sorted sublist of the nodes of height > %d' % (l, l)
    sk = sorted(keys); pos = None; exp = []
    for op in ops:
        c = op[0]
        if c == 'F': pos = 0 if sk else None
        elif c == 'L': pos = len(sk) - 1 if sk else None
        elif c == 'S':
            i = bisect.bisect_left(sk, unhx(op[1:])); pos = i if i < len(sk) else None
        elif c == 'N':
            if pos is not None: pos = pos + 1 if pos + 1 < len(sk) else None
        elif c == 'P':
            if pos is not None: pos = pos - 1 if pos > 0 else None
        exp.append('!' if pos is None else hx(sk[pos]))
    if (','.join(exp) or '.') != vis: return 'iterator does not move as in the sorted list: expected ' + ','.join(exp)
    return None

def fold(k):
    return bytes(c + 32 if 65 <= c <= 90 else c for c in k)
def ukey(sel, k):
    """sort key of user key k under comparator sel (1 = reverse: handled by the caller)"""
    return fold(k) if sel == 2 else k

def ikey(k, seq, ty):
    return k + ((seq << 8) | ty).to_bytes(8, 'little')

def memtable_case(rng, tier):
    sel = rng.choice([0, 0, 1, 2])
    npool = rng.choice([1, 2, 3, 6, 12])
    pool = []
    while len(pool) < npool:
        if sel == 2: k = bytes(rng.choice(b'aAbBzZ_1') for _ in range(rng.range(0, 4)))
        else: k = rng.bytes(rng.choice([0, 1, 1, 2, 3, 8, 130 if rng.chance(1, 8) else 4]))
        if k not in pool: pool.append(k)
    n = rng.choice([0, 1, 2, 4, 8, 16, 40, 100 if tier == 'quick' else 250])
    base = rng.choice([0, 1, 100, (1 << 56) - 1 - 4 * n - 4, 1 << 32])
    seqs = [base + 1 + i * rng.choice([1, 1, 2]) for i in range(n)]
    seqs = sorted(set(seqs))
    while len(seqs) < n: seqs.append(seqs[-1] + 1 if seqs else 1)
    if rng.chance(1, 3):
        # out-of-order insertion (allowed by the skiplist; seqs stay unique)
        for i in range(len(seqs) - 1, 0, -1):
            j = rng.below(i + 1); seqs[i], seqs[j] = seqs[j], seqs[i]
    adds = []
    for q in seqs:
        ty = 0 if rng.chance(1, 4) else 1
        v = b'' if ty == 0 and rng.chance(3, 4) else rng.bytes(rng.choice([0, 1, 2, 5, 200 if rng.chance(1, 10) else 3]))
        adds.append((q, ty, rng.choice(pool), v))
    gets = []
    for _ in range(rng.range(0, 30)):
        k = rng.choice(pool) if rng.chance(4, 5) else rng.bytes(rng.range(0, 3))
        if sel == 2 and rng.chance(1, 2): k = k.swapcase() if k.isascii() else k
        q = rng.choice(seqs) + rng.choice([0, 0, 1, -1]) if seqs and rng.chance(4, 5) else rng.choice([0, 1, (1 << 56) - 1])
        gets.append((k, max(0, min(q, (1 << 56) - 1))))
    ops = gen_script(rng, pool, rng.range(0, 25),
                     mk=lambda k: ikey(k, rng.choice(seqs) if seqs and rng.chance(2, 3) else rng.choice([0, (1 << 56) - 1]), rng.below(2)))
    line = 'memtable %x %s %s %s' % (sel,
        ','.join('%x:%x:%s:%s' % (q, t, hx(k), hx(v)) for q, t, k, v in adds) or '.',
        ','.join('%s:%x' % (hx(k), q) for k, q in gets) or '.', ','.join(ops) or '.')
    return line, ('mt', sel, adds, gets)

def memtable_oracle(sel, adds, gets, out):
    parts = out.split(' ')
    if len(parts) != 2: return 'bad output'
    exp = []
    for k, q in gets:
        best = None
        for (s, t, ak, av) in adds:
            if ukey(sel, ak) == ukey(sel, k) and s <= q and (best is None or s > best[0]):
                best = (s, t, av)
        exp.append('n' if best is None else ('d' if best[1] == 0 else 'v' + hx(best[2])))
    if (','.join(exp) or '.') != parts[0]:
        return 'get is not the newest entry with sequence <= the read sequence: expected ' + ','.join(exp)
    return None

def run_segment(rep, tier, seed, out_dir, k1, model):
    rng = vlib.Rng(seed ^ 0x5C1B)
    nsl = 320 if tier == 'quick' else 6000
    nmt = 320 if tier == 'quick' else 6000
    cases = []
    fixed = [
        'skiplist deadbeef 6161,6262,61,63,6263,60,6464646464 F,N,N,N,N,N,N,N,N,L,P,P,S62,S6262,S6263ff,P,S7a,P,S-,P',
        'skiplist deadbeef . F,L,S61,N,P',
        'skiplist 0 - L',
        'memtable 0 5:1:6b31:7631,6:0:6b31:-,7:1:6b32:7632,8:1:6b31:7633 6b31:4,6b31:5,6b31:6,6b31:7,6b31:8,6b31:ff,6b32:6,6b32:7,6b33:ff,6b30:ff F,N,N,N,N,L,P,S6b310106000000000000,S6b31ffffffffffffffff',
        'memtable 2 5:1:4b31:7631,6:1:6b31:7632 4b31:9,6b31:5,6b31:4 F,N,N',
        'memtable 0 . 61:1 F',
    ]
    for f in fixed: cases.append((f, None))
    for _ in range(nsl): cases.append(skiplist_case(rng.fork(), tier))
    for _ in range(nmt): cases.append(memtable_case(rng.fork(), tier))
    lines = [c[0] for c in cases]
    c = vlib.run_lines(k1, lines, shards=4)
    m = vlib.run_lines(model, lines, shards=vlib.NCPU)
    rep.evaluated(len(lines))
    def _fails(meta, o):
        if o.startswith('CRASH'): return True
        if meta is None or o.startswith('EXC'): return False
        return bool(skiplist_oracle(meta[1], meta[2], o) if meta[0] == 'sl' else memtable_oracle(meta[1], meta[2], meta[3], o))
    failing = {i for i, ((line, meta), o) in enumerate(zip(cases, c)) if _fails(meta, o)}
    bad = vlib.diff_cases(rep, lines, c, m, 'skiplist-memtable', failing=failing,
                          correspondence='Skiplist.v / Memtable.v vs ldb_skiplist_* / ldb_memtable_* : theorems Properties_C01c.C01_skiplist_*, C01_memtable_*')
    nor = 0
    for (line, meta), o in zip(cases, c):
        if meta is None or o.startswith('CRASH') or o.startswith('EXC'):
            continue
        if meta[0] == 'sl':
            e = skiplist_oracle(meta[1], meta[2], o)
            rep.nontrivial(('sl', o.split(' ')[0][:24], len(meta[1])))
            rep.count('skiplist_nodes', len(meta[1]))
        else:
            e = memtable_oracle(meta[1], meta[2], meta[3], o)
            g = o.split(' ')[0].split(',')
            rep.nontrivial(('mt', meta[1], len(meta[2]), any(t[0] == 'v' for t in g), 'd' in g, 'n' in g))
            rep.count('memtable_gets', len(meta[3]))
        if e:
            nor += 1
            if nor <= 3:
                rep.violation({'kind': 'oracle-' + meta[0], 'case': line[:20000], 'implementation': o[:20000], 'error': e})
    rep.count('skiplist_cases', nsl); rep.count('memtable_cases', nmt)
    rep.sample(lines[len(fixed) + 5][:300] + ' => ' + c[len(fixed) + 5][:200])
    return bad + nor
