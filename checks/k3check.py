"""k3check.py -- shared runner for the crash properties C02 C03 C04 C05 (tie K3)."""
import os, json, shutil, time, subprocess
from concurrent.futures import ThreadPoolExecutor, ProcessPoolExecutor
import vlib, k3lib, k2lib

FOLLOWUP = ['batch p66757031:@7:1,p61:@9:2 0', 'batch p66757032:@7:3 1', 'del 62', 'flush', 'scan -', 'reopen', 'scan -', 'layout']

FOLLOWUP_NOFLUSH = [o for o in FOLLOWUP if o != 'flush']     # the recovered log keeps being appended to and is read again at the reopen

def followup_expect(content):
    m = dict(content)
    m[b'fup1'] = '@7:1'; m[b'a'] = '@9:2'; m[b'fup2'] = '@7:3'; m.pop(b'b', None)
    return m

def explore_history(args):
    (k3, k2, base, idx, seed, opts, nops, modes, max_points, nested, big, tier) = args
    rng = vlib.Rng(seed)
    work = os.path.join(base, 'h%d' % idx); os.makedirs(work, exist_ok=True)
    if isinstance(nops, tuple):          # corpus history: (ops, batches)
        ops, batches = nops
    else:
        ops, batches = k3lib.gen_write_history(rng, nops=nops, big_batches=big)
    rc, out, err, evs, shadow = k3lib.run_traced(k3, os.path.join(work, 'db'), opts, ops, work)
    calls = k2lib.parse_trace(out)
    problems = []; stats = {'points': 0, 'images': 0, 'distinct_images': 0, 'recoveries': 0, 'followups': 0, 'nested': 0,
                            'events': len(evs), 'batches': len(batches), 'lost_tail': 0, 'inflight_present': 0}
    if rc != 0:
        problems.append({'kind': 'harness-crash', 'detail': err[-500:]})
        return {'seed': seed, 'opts': opts, 'ops': ops, 'problems': problems, 'stats': stats}
    t_lift = time.time()
    # the protocol check (lifting + fs_wf + model recovery) is the expensive part: in the quick tier it runs on the
    # corpus histories and on the first two generated histories
    if tier != 'quick' or idx >= 1000 or idx < 2:
        problems += check_protocol(evs, shadow, calls, ops, None, k2=k2, opts=opts, batches=batches, work=work, seed=seed, stats=stats,
                                   samples=(6 if tier == 'quick' else 10))
        stats['lifted_histories'] = 1
    stats['lift_s'] = round(time.time() - t_lift, 1)
    info = k3lib.batch_positions(evs, ops, batches, calls)
    points = list(range(1, len(evs) + 1))
    # crash points BETWEEN two fragments of one log/MANIFEST record (consecutive writes to the same file inside one call)
    frag_points = {i for i in range(1, len(evs)) if evs[i]['k'] == 'W' and evs[i - 1]['k'] == 'W' and evs[i]['id'] == evs[i - 1]['id']
                   and (evs[i]['name'].endswith('.log') or evs[i]['name'].startswith('MANIFEST'))}
    if len(points) > max_points:
        # keep every point around fsync / rename / unlink / create (where the proofs split cases), sample the rest
        hot = {i + d for i, e in enumerate(evs) if e['k'] in ('S', 'D', 'R', 'U', 'C', 'X') for d in (0, 1)}
        hot |= frag_points
        hot = [p for p in points if p in hot]
        rest = [p for p in points if p not in hot]
        while len(hot) > max_points: hot.pop(rng.below(len(hot)))
        while len(hot) < max_points and rest: hot.append(rest.pop(rng.below(len(rest))))
        points = sorted(set(hot))
    seen = set()
    for p in points:
        stats['points'] += 1
        for mode in modes:
            img = k3lib.image_at(evs, shadow, p, mode, rng)
            stats['images'] += 1
            # the same bytes can be judged differently later (more batches acknowledged / more logs deleted)
            key = (k3lib.image_key(img), mode == 'written', sum(1 for e in evs[:p] if e['k'] == 'Z'),
                   sum(1 for e in evs[:p] if e['k'] == 'U'))
            if key in seen: continue
            seen.add(key); stats['distinct_images'] += 1
            if 'CURRENT' not in img and not any(n.startswith('MANIFEST') for n in img):
                continue     # database never came into existence: nothing to recover (create_if_missing would make a fresh one)
            dst = os.path.join(work, 'img')
            fu = None
            if p in frag_points and opts.get('reuse_logs'): fu = FOLLOWUP_NOFLUSH
            elif stats['recoveries'] % 5 == 0: fu = FOLLOWUP if stats['recoveries'] % 10 == 0 else FOLLOWUP_NOFLUSH
            rc2, rcalls, rops = k3lib.recover_and_read(k2, img, shadow, dst, opts, followup=fu)
            stats['recoveries'] += 1
            where = {'crash_point': p, 'mode': mode, 'event': evs[p - 1] if p - 1 < len(evs) else None}
            if rc2 != 0 or len(rcalls) < 2 or rcalls[0]['ret'] is None:
                problems.append(dict(where, kind='recovery-crash', detail='rc=%d' % rc2)); continue
            if rcalls[0]['ret'].split(' ')[0] != '0':
                problems.append(dict(where, kind='open-failed', detail=rcalls[0]['ret'])); continue
            content, status = k3lib.scan_to_map(rcalls[1]['ret'])
            if status != '0':
                problems.append(dict(where, kind='scan-error', detail=rcalls[1]['ret'][-100:])); continue
            ok, why, present = k3lib.check_recovered(content, batches, info, p, evs, power_loss=(mode != 'written'))
            if not ok:
                problems.append(dict(where, kind='contract', detail=why)); continue
            acked = {i for i, x in enumerate(info) if x['acked'] and x['z'] is not None and x['z'] < p}
            if acked - present: stats['lost_tail'] += 1
            if present - acked: stats['inflight_present'] += 1
            if fu:
                stats['followups'] += 1
                want = followup_expect(content)
                scans = [c for c in rcalls[3:] if c['name'] == 'scan' and c['ret']]
                reop = [c for c in rcalls[3:] if c['name'] == 'reopen']
                if reop and (reop[0]['ret'] or '1').split(' ')[0] != '0':
                    problems.append(dict(where, kind='reopen-after-recovery-failed', detail=reop[0]['ret']))
                elif len(scans) < 2:
                    problems.append(dict(where, kind='followup-crash', detail='follow-up did not complete'))
                else:
                    for j, sc in enumerate(scans[:2]):
                        got, st = k3lib.scan_to_map(sc['ret'])
                        if got != want or st != '0':
                            bad = [k.hex() for k in set(got) | set(want) if got.get(k) != want.get(k)][:5]
                            problems.append(dict(where, kind='followup-contents', detail='%s scan differs at keys %s' % ('pre-reopen' if j == 0 else 'post-reopen', bad)))
                            break
            # ---- second-level crashes: kill / power loss INSIDE the recovery that follows (sampled)
            if nested and stats['recoveries'] % nested == 1 and not problems:
                problems += nested_crashes(k3, k2, img, shadow, work, opts, content, mode, rng, stats, where)
            if len(problems) >= 3: break
        if len(problems) >= 3: break
    shutil.rmtree(work, ignore_errors=True)
    return {'seed': seed, 'opts': opts, 'ops': ops, 'problems': problems, 'stats': stats}

def corpus_history(lines):
    """corpus entry: list of harness ops; batches are recognised from 'batch <ops> <sync>' lines whose first update is a marker key"""
    batches = []
    for i, l in enumerate(lines):
        a = l.split(' ')
        if a[0] == 'batch':
            ups = []
            for t in a[1].split(','):
                if t[0] == 'p':
                    k, v = t[1:].split(':', 1); ups.append((bytes.fromhex(k) if k != '-' else b'', v))
                else:
                    k = t[1:]; ups.append((bytes.fromhex(k) if k != '-' else b'', None))
            batches.append({'op_index': i, 'sync': len(a) > 2 and a[2] == '1', 'updates': ups})
    return (lines, batches)

# F5: an acknowledged unsynced batch, a clean reopen (its log is deleted after CURRENT is switched), power loss before the next fsync
CORPUS = [
    ({'write_buffer': 65536, 'reuse_logs': 0}, ['open', 'batch p6d3030303030:@5:1 0', 'reopen', 'batch p6d3030303031:@5:2 0']),
    ({'write_buffer': 65536, 'reuse_logs': 0}, ['open', 'batch p6d3030303030:@5:1 1', 'batch p6d3030303031:@6:2 0', 'reopen', 'reopen', 'batch p6d3030303032:@5:3 1']),
]

def nested_crashes(k3, k2, img, shadow, work, opts, content1, mode1, rng, stats, where, max_points=14):
    """The recovery of a crash image is itself traced; it is crashed at (sampled) syscall boundaries, in the process-crash
    and the minimal power-loss model; recovering from the second-level image must succeed and lose nothing further:
    contents equal those of the first recovery."""
    d1 = os.path.join(work, 'lvl1'); w2 = os.path.join(work, 'lvl2'); os.makedirs(w2, exist_ok=True)
    k3lib.materialise(img, shadow, d1)
    init = {n: os.path.getsize(os.path.join(d1, n)) for n in os.listdir(d1)}
    keep = os.path.join(work, 'lvl1keep')
    if os.path.exists(keep): shutil.rmtree(keep)
    shutil.copytree(d1, keep)
    tr = os.path.join(w2, 'trace'); sh2 = os.path.join(w2, 'shadow')
    if os.path.exists(sh2): shutil.rmtree(sh2)
    env = dict(os.environ, K3_TRACE=tr, K3_SHADOW=sh2)
    import subprocess
    r = subprocess.run([k3, d1] + ['%s=%s' % kv for kv in sorted(opts.items())], input=b'open\nscan -\n', capture_output=True, timeout=120, env=env)
    evs2 = k3lib.parse_io_trace(tr)
    out = []
    pts = list(range(1, len(evs2) + 1))
    while len(pts) > max_points: pts.pop(rng.below(len(pts)))
    for p2 in pts:
        for mode2 in ('written', 'min'):
            img2 = k3lib.image_at(evs2, sh2, p2, mode2, rng, initial=init)
            if 'CURRENT' not in img2: continue
            rc2, rcalls, _ = k3lib.recover_and_read(k2, img2, sh2, os.path.join(w2, 'img'), opts, initial_dir=keep)
            stats['nested'] += 1
            w = dict(where, nested_point=p2, nested_mode=mode2, nested_event=evs2[p2 - 1] if p2 - 1 < len(evs2) else None)
            if rc2 != 0 or len(rcalls) < 2 or rcalls[0]['ret'] is None or rcalls[0]['ret'].split(' ')[0] != '0':
                out.append(dict(w, kind='nested-open-failed', detail=(rcalls[0]['ret'] if rcalls and rcalls[0]['ret'] else 'rc=%d' % rc2))); break
            c2, st = k3lib.scan_to_map(rcalls[1]['ret'])
            if st != '0' or c2 != content1:
                bad = [k.hex() for k in set(c2) | set(content1) if c2.get(k) != content1.get(k)][:5]
                out.append(dict(w, kind='nested-contents-differ', detail='after a crash inside recovery the contents differ from the first recovery at keys %s' % bad)); break
        if out: break
    shutil.rmtree(d1, ignore_errors=True); shutil.rmtree(keep, ignore_errors=True); shutil.rmtree(w2, ignore_errors=True)
    return out

def run_crash(rep, prop, tier, seed, modes, nhist, nops, max_points, opts_list, big=False, known_sig=None, nested=0):
    out = vlib.scratch_dir()
    lib = vlib.build_lib(out, 'nothread')
    k3 = vlib.build_k3(out, 'nothread', lib=lib); k2 = vlib.build_k2(out, 'nothread', lib=lib)
    rng = vlib.Rng(seed ^ 0xBADC0DE)
    jobs = []
    for j, (copts, lines) in enumerate(CORPUS):        # corpus first, every crash point
        jobs.append((k3, k2, out, 1000 + j, 0, dict(copts), corpus_history(lines), modes, 100000, nested, big, tier))
    for i in range(nhist):
        opts = dict(opts_list[i % len(opts_list)])
        jobs.append((k3, k2, out, i, rng.next(), opts, nops, modes, max_points, nested, big, tier))
    with ProcessPoolExecutor(vlib.NCPU) as ex:
        results = list(ex.map(explore_history, jobs, chunksize=1))
    totals = {}
    reported = 0
    for r in results:
        for k, v in r['stats'].items(): totals[k] = totals.get(k, 0) + v
        rep.evaluated(r['stats']['recoveries'])
        for p in r['problems']:
            sig = known_sig(r, p) if known_sig else None
            if reported < 3 or sig:
                if rep.violation({'kind': 'K3-' + p['kind'], 'problem': p, 'options': r['opts'], 'history': r['ops'],
                                  'history_seed': r['seed']}, signature=sig):
                    reported += 1
    rep.cov['distinct_nontrivial'] = totals.get('distinct_images', 0)
    rep.cov['k3'] = totals
    rep.cov['traces_validated_against_impl'] = len(results)
    if results:
        r0 = results[0]
        rep.sample({'options': r0['opts'], 'ops_head': [o[:120] for o in r0['ops'][:8]], 'stats': r0['stats']})
    return results


# ------------------------------------------------------------------ record-level protocol (coq/theories/FsModel.v)
def check_protocol(evs, shadow, calls, ops, model, k2=None, opts=None, batches=None, work=None, seed=0, stats=None, samples=10):
    """Lift the real syscall trace to the record-level trace of FsModel.v (checks/k3lift.py):
    (1) wf_protocol (rules R0..R7, the hypotheses of the C02/C03/C05/C17b theorems) must hold: `fs_wf` answers ok;
    (2) at ~samples crash points the model's recovery of the lifted written image must keep exactly the
        batches (marker keys) that the real ldb_open keeps on the byte-exact written image.
    Returns a list of problems."""
    import k3lift
    out = []
    m = k2lib.Model(model or vlib.ensure_model())
    try:
        try:
            L = k3lift.lift(evs, shadow, m, calls, ops, opts or {})
        except k3lift.LiftError as e:
            return [{'kind': 'protocol-lift-failed', 'detail': str(e)}]
        if m.ask('fs_load ' + L.text).split(' ')[0] != 'ok':
            return [{'kind': 'protocol-lift-failed', 'detail': 'model driver rejected the lifted trace'}]
        r = m.ask('fs_wf =')
        if stats is not None:
            stats['lifted_events'] = stats.get('lifted_events', 0) + len(L.events)
        if r != 'ok':
            a = r.split(' ')
            idx = int(a[2]) if len(a) > 2 and a[2].isdigit() else -1
            real = next((i for i in range(len(evs)) if L.posmap[i] <= idx < L.posmap[i + 1]), None)
            out.append({'kind': 'protocol-rule-violated',
                        'detail': '%s at lifted event %d (%s), real event %s %s' % (a[1] if len(a) > 1 else r, idx,
                                  L.events[idx][:80] if 0 <= idx < len(L.events) else '?', real, evs[real] if real is not None else '')})
            return out
        if k2 is None or not batches or work is None:
            return out
        rng = vlib.Rng(seed ^ 0xF5F5F5)
        info = k3lib.batch_positions(evs, ops, batches, calls)
        keys = ','.join(k3lift.khex(b['updates'][0][0]) for b in batches)
        pts = [p for p in range(1, len(evs) + 1) if L.posmap[p] != L.posmap[p - 1]] or [len(evs)]
        pick = []
        while pts and len(pick) < samples: pick.append(pts.pop(rng.below(len(pts))))
        for p in sorted(pick):
            img = k3lib.image_at(evs, shadow, p, 'written')
            if 'CURRENT' not in img: continue
            rc2, rcalls, _ = k3lib.recover_and_read(k2, img, shadow, os.path.join(work, 'imgp'), opts)
            real_ok = rc2 == 0 and len(rcalls) >= 2 and rcalls[0]['ret'] is not None and rcalls[0]['ret'].split(' ')[0] == '0'
            mr = m.ask('fs_present_written = %d %s' % (L.posmap[p], keys))
            if stats is not None: stats['model_recoveries'] = stats.get('model_recoveries', 0) + 1
            where = {'crash_point': p, 'mode': 'written', 'event': evs[p - 1]}
            if not real_ok:
                if mr != 'fail':
                    out.append(dict(where, kind='protocol-model-disagrees', detail='real open fails (%s) but the model recovers' % (rcalls[0]['ret'] if rcalls else rc2)))
                continue
            if mr == 'fail':
                out.append(dict(where, kind='protocol-model-disagrees', detail='the model cannot recover the written image but the real open succeeds')); continue
            content, status = k3lib.scan_to_map(rcalls[1]['ret'])
            real_present = [1 if b['updates'][0][0] in content else 0 for b in batches]
            model_present = [int(x) for x in mr.split(' ')[1].split(',')]
            if real_present != model_present:
                diff = [i for i, (a, b) in enumerate(zip(real_present, model_present)) if a != b][:8]
                out.append(dict(where, kind='protocol-model-disagrees', detail='surviving batches differ (real vs model) at batch indices %s' % diff))
            if len(out) >= 2: break
    finally:
        m.close()
    return out


def failed_install_segment(rep, tier, seed, label='gc-after-failed-install'):
    """No live file may be removed even when installing a version fails: fail every MANIFEST append / fsync and
    directory fsync once (the background error must stop obsolete-file removal), then reopen without faults:
    the open must succeed (no table named by the MANIFEST is missing)."""
    import c12
    out = vlib.scratch_dir(); lib = vlib.build_lib(out, 'nothread')
    k3 = vlib.build_k3(out, 'nothread', lib=lib); k2 = vlib.build_k2(out, 'nothread', lib=lib)
    rng = vlib.Rng(seed ^ 0xC13F)
    jobs = []
    for h in range(2 if tier == 'quick' else 20):
        opts = {'write_buffer': 65536, 'reuse_logs': 0, 'paranoid': h % 2}
        ops, batches = k3lib.gen_write_history(rng, nops=30, reopen=(h % 2 == 1))
        ops += ['crange 0 * *', 'crange 1 * *', 'compact * *'] + (['reopen', 'batch p6d7a7a7a7a:@4:1 0', 'reopen'] if h % 2 == 1 else [])
        if h % 2 == 1: batches.append({'op_index': len(ops) - 2, 'sync': False, 'updates': [(b'mzzzz', '@4:1')]})
        work = os.path.join(out, 'b%d' % h); os.makedirs(work, exist_ok=True)
        rc, o, e, evs, sh = k3lib.run_traced(k3, os.path.join(work, 'db'), opts, ops, work, fail='999999999:5:0:0', logidx=True)
        shutil.rmtree(work, ignore_errors=True)
        sites = [ev['idx'] for ev in evs if ev['k'] == 'I' and (((ev['name'].startswith('MANIFEST') or ev['name'].endswith('.dbtmp')) and ev['what'] in ('write', 'fsync', 'close')) or (ev['what'] == 'fsync' and ev['name'] == '.'))]
        dirsites = [ev['idx'] for ev in evs if ev['k'] == 'I' and ((ev['what'] == 'fsync' and ev['name'] == '.') or ev['name'].endswith('.dbtmp'))]
        if tier == 'quick' and len(sites) > 40:
            sites = sorted(set(dirsites[-20:]) | set(rng.choice(sites) for _ in range(26)))
        for k in sites:
            jobs.append((k3, k2, os.path.join(out, 'f%d_%d' % (h, len(jobs))), opts, ops, batches, '%d:5:0:%d' % (k, rng.below(2)), 'h%d' % h))
    with ThreadPoolExecutor(vlib.NCPU) as ex:
        results = list(ex.map(c12.one_fault_run, jobs))
    n = 0
    for job, r in zip(jobs, results):
        rep.evaluated(1); n += 1
        for p in r['problems']:
            if p['kind'] in ('reopen-failed', 'reopen-crash', 'scan-error-after-reopen', 'crash', 'hang'):
                rep.violation({'kind': 'K3-' + label + '-' + p['kind'], 'problem': p, 'options': job[3], 'history': job[4], 'fail': job[6]})
    rep.cov['failed_install_runs'] = n



def orphan_race_segment(rep, tier, seed, label='orphans-vs-background-work-at-open'):
    """Crash in the middle of a multi-output compaction (orphan tables whose numbers the next incarnation will
    reuse), then recovery on the PTHREAD build with every unlink delayed: the background compaction that the
    open schedules runs while the opener is still removing orphans. The recovered store must behave exactly
    like the single-threaded recovery of the same image: same contents, follow-up writes / flush / compaction /
    reopen succeed."""
    out = vlib.scratch_dir(); lib = vlib.build_lib(out, 'nothread')
    k3 = vlib.build_k3(out, 'nothread', lib=lib); k2 = vlib.build_k2(out, 'nothread', lib=lib)
    k2p = vlib.build_k2(out, 'pthread')
    rng = vlib.Rng(seed ^ 0x0F4A)
    nimg = 0; nfollow = 0
    for h in range(2 if tier == 'quick' else 8):
        opts = {'write_buffer': 1048576, 'max_file_size': 1048576, 'reuse_logs': (h + 1) % 2, 'paranoid': 0}
        ops = ['open']; batches = []
        for bi in range(rng.range(170, 190)):
            ups = [(b'm%05d' % bi, '@%d:%d' % (rng.range(1, 40), bi % 256)), (b'k%05d' % rng.below(4000), '@%d:%d' % (rng.range(55000, 65000), rng.below(256)))]
            ops.append('batch %s 0' % ','.join('p%s:%s' % (k3lib.khex(k), v) for k, v in ups))
            batches.append({'op_index': len(ops) - 1, 'sync': False, 'updates': ups})
        ops += ['layout']
        work = os.path.join(out, 'orph%d' % h); os.makedirs(work, exist_ok=True)
        rc, o, e, evs, shadow = k3lib.run_traced(k3, os.path.join(work, 'db'), opts, ops, work)
        calls = k2lib.parse_trace(o)
        info = k3lib.batch_positions(evs, ops, batches, calls)
        # crash points: right after the 3rd, 4th, ... table created since the last MANIFEST append
        runs = [[]]; since = 0
        for i, ev in enumerate(evs):
            if ev['k'] == 'W' and ev['name'].startswith('MANIFEST'):
                since = 0
                if runs[-1]: runs.append([])
            elif ev['k'] == 'C' and ev['name'].endswith('.ldb'):
                since += 1
                if since >= 3: runs[-1].append(i + 1)
            elif ev['k'] == 'S' and ev['name'].endswith('.ldb') and since >= 3: runs[-1].append(i + 1)
        # the more orphans, the more certain that the next incarnation reuses one of their numbers: the last points of each run first
        pts = sorted(set(p_ for r_ in runs for p_ in r_[-4:]))
        rest_pts = sorted(set(p_ for r_ in runs for p_ in r_[:-4]))
        rep.cov.setdefault('orphan_race_candidate_points', []).append(len(pts))
        lim = 8 if tier == 'quick' else 24
        while len(pts) > lim: pts.pop(rng.below(len(pts)))
        while len(pts) < lim and rest_pts: pts.append(rest_pts.pop(rng.below(len(rest_pts))))
        def one(p):
            img = k3lib.image_at(evs, shadow, p, 'written')
            if 'CURRENT' not in img: return None
            follow = ['batch p66757031:@7:1 1', 'flush', 'compact * *', 'scan -', 'reopen', 'scan -', 'layout']
            rc1, c1, _ = k3lib.recover_and_read(k2, img, shadow, os.path.join(work, 'i%d_a' % p), opts, followup=follow)
            rc2, c2, _ = k3lib.recover_and_read(k2p, img, shadow, os.path.join(work, 'i%d_b' % p), opts, followup=follow, env={'K2_UNLINK_DELAY_US': '15000', 'K2_NOEDIT': '1'}, timeout=120)
            return p, sorted(n for n in img if n.endswith('.ldb')), rc1, c1, rc2, c2
        with ThreadPoolExecutor(vlib.NCPU) as ex:
            res = [r for r in ex.map(one, pts) if r]
        for p, tables, rc1, c1, rc2, c2 in res:
            rep.evaluated(1); nimg += 1
            base = [c['ret'] for c in c1]; thr = [c['ret'] for c in c2]
            where = {'crash_point': p, 'mode': 'written', 'tables_in_image': tables}
            if rc1 != 0 or len(base) < 10 or base[0] is None or base[0].split(' ')[0] != '0':
                continue          # the single-threaded recovery is judged by the crash segments, not here
            names = ['open', 'scan', 'layout', 'batch', 'flush', 'compact', 'scan', 'reopen', 'scan', 'layout']
            bad = None
            if rc2 != 0 or len(thr) < 10: bad = 'threaded recovery run ended early (rc=%s, %d calls returned)' % (rc2, len(thr))
            else:
                for i in (0, 1, 3, 4, 5, 6, 7, 8):
                    a = base[i].split(' ')[0] if i in (0, 7) else base[i]
                    b = (thr[i] or 'none').split(' ')[0] if i in (0, 7) else thr[i]
                    if a != b:
                        d = next((j for j in range(min(len(a or ''), len(b or ''))) if a[j] != b[j]), min(len(a or ''), len(b or '')))
                        a, b = (a or '')[max(0, d - 40):], (b or '')[max(0, d - 40):]
                        bad = '%s (call %d) returned %s on the threaded build, %s single-threaded' % (names[i], i, (b or '')[:80], (a or '')[:80]); break
            nfollow += 1
            rep.nontrivial(('orphan', h, p))
            if bad:
                rep.violation({'kind': 'K3-' + label, 'problem': dict(where, detail=bad), 'options': opts, 'history': ops, 'unlink_delay_us': 15000})
        shutil.rmtree(work, ignore_errors=True)
    rep.cov['orphan_race_images'] = nimg


def log_gc_race_segment(rep, tier, seed, label='log-removed-while-its-memtable-is-unflushed'):
    """PTHREAD build, one client writing continuously while the background thread flushes and compacts: right
    after every unlink of a write-ahead log the directory is copied (harness/k2.c K2_SNAP_DIR) -- a process-crash
    image at the moment a log has just been discarded. Real recovery of every such image must still show every
    write acknowledged before the unlink (C13: no file that is still needed is removed; C03: process crash)."""
    out = vlib.scratch_dir()
    k2 = vlib.build_k2(out, 'nothread'); k2p = vlib.build_k2(out, 'pthread')
    rng = vlib.Rng(seed ^ 0x106C)
    nsnap = 0; late = 0
    def one(h):
        r_ = vlib.Rng(seed * 1000 + h)
        opts = {'write_buffer': r_.choice([65536, 131072, 262144]), 'max_file_size': 1048576, 'reuse_logs': h % 2, 'paranoid': 0}
        ops = ['open']; batches = []
        for bi in range(r_.range(110, 150)):
            ups = [(b'm%05d' % bi, '@%d:%d' % (r_.range(1, 40), bi % 256)), (b'k%05d' % r_.below(300), '@%d:%d' % (r_.range(20000, 62000), r_.below(256)))]
            ops.append('batch %s 0' % ','.join('p%s:%s' % (k3lib.khex(k), v) for k, v in ups))
            batches.append({'op_index': len(ops) - 1, 'sync': False, 'updates': ups})
        work = os.path.join(out, 'lg%d' % h); os.makedirs(work, exist_ok=True)
        snapdir = os.path.join(work, 'snaps'); db = os.path.join(work, 'db')
        env = dict(os.environ, K2_SNAP_DIR=snapdir, K2_NOEDIT='1')
        try:
            r = subprocess.run([k2p, db] + ['%s=%s' % kv for kv in sorted(opts.items())], input=('\n'.join(ops) + '\n').encode(), capture_output=True, timeout=300, env=env)
        except subprocess.TimeoutExpired:
            shutil.rmtree(work, ignore_errors=True); return [], [{'detail': 'threaded run did not finish'}], opts, ops
        calls = k2lib.parse_trace(r.stdout.decode('latin1'))
        acked = [b for b in batches if b['op_index'] < len(calls) and calls[b['op_index']]['ret'] == '0']
        res = []; probs = []
        for sd in sorted(os.listdir(snapdir)) if os.path.isdir(snapdir) else []:
            done = int(sd.split('_')[1]); img = os.path.join(snapdir, sd)
            if not os.path.exists(os.path.join(img, 'CURRENT')): continue
            try:
                r2 = subprocess.run([k2, img] + ['%s=%s' % kv for kv in sorted(opts.items())], input=b'open\nscan -\n', capture_output=True, timeout=60)
                c2 = k2lib.parse_trace(r2.stdout.decode('latin1'))
            except subprocess.TimeoutExpired:
                c2 = []
            must = [b for b in acked if b['op_index'] < done]
            logs = sorted(n for n in os.listdir(img) if n.endswith('.log'))
            res.append((sd, done, len(must)))
            if len(c2) < 2 or c2[0]['ret'] is None or c2[0]['ret'].split(' ')[0] != '0':
                probs.append({'snapshot': sd, 'logs_in_image': logs, 'detail': 'recovery of the image failed: %s' % (c2[0]['ret'] if c2 else 'no output')})
            else:
                content, st = k3lib.scan_to_map(c2[1]['ret'])
                missing = [b['op_index'] for b in must if b['updates'][0][0] not in content]
                if st != '0': probs.append({'snapshot': sd, 'logs_in_image': logs, 'detail': 'scan status %s' % st})
                elif missing:
                    probs.append({'snapshot': sd, 'logs_in_image': logs, 'calls_completed_before_unlink': done,
                                  'detail': 'writes acknowledged before the log was unlinked are missing after recovery: calls %s' % missing[:10]})
            shutil.rmtree(img, ignore_errors=True)
        shutil.rmtree(work, ignore_errors=True)
        return res, probs, opts, ops
    hs = list(range(4 if tier == 'quick' else 48))
    with ThreadPoolExecutor(max(2, vlib.NCPU // 2)) as ex:
        results = list(ex.map(one, hs))
    reported = 0
    for h, (res, probs, opts, ops) in zip(hs, results):
        rep.evaluated(len(res)); nsnap += len(res)
        for (sd, done, nm) in res:
            if nm > 0: rep.nontrivial(('loggc', h, sd))
        for pb in probs[:1]:
            if reported < 3:
                rep.violation({'kind': 'K3-' + label, 'problem': pb, 'options': opts, 'history': ops, 'build': 'pthread', 'history_index': h}); reported += 1
    rep.cov['log_unlink_images'] = nsnap


def replay_crash(rep, path):
    """Re-run the recorded history under the I/O interposition, rebuild the crash image of the recorded
    crash point / mode, run the real recovery on it and re-evaluate the contract. Exit 1 if it still fails."""
    r = json.load(open(path))
    if 'history' not in r or 'problem' not in r:
        print(json.dumps(r)[:3000]); return 1
    out = vlib.scratch_dir(); lib = vlib.build_lib(out, 'nothread')
    k3 = vlib.build_k3(out, 'nothread', lib=lib); k2 = vlib.build_k2(out, 'nothread', lib=lib)
    ops, batches = corpus_history(r['history'])
    work = os.path.join(out, 'rp'); os.makedirs(work, exist_ok=True)
    rc, o, e, evs, shadow = k3lib.run_traced(k3, os.path.join(work, 'db'), r['options'], ops, work)
    calls = k2lib.parse_trace(o)
    info = k3lib.batch_positions(evs, ops, batches, calls)
    pr = r['problem']; p = pr.get('crash_point'); mode = pr.get('mode', 'written')
    if p is None:
        print('problem without a crash point:', json.dumps(pr)[:1000]); return 1
    img = k3lib.image_at(evs, shadow, p, mode, vlib.Rng(r.get('history_seed', 0)))
    rc2, rcalls, _ = k3lib.recover_and_read(k2, img, shadow, os.path.join(work, 'img'), r['options'], followup=FOLLOWUP_NOFLUSH)
    print('crash point %s mode %s image %s' % (p, mode, sorted(img.items())))
    if rc2 != 0 or len(rcalls) < 2 or rcalls[0]['ret'] is None or rcalls[0]['ret'].split(' ')[0] != '0':
        print('recovery failed:', rcalls[0]['ret'] if rcalls else rc2); return 1
    content, st = k3lib.scan_to_map(rcalls[1]['ret'])
    ok, why, present = k3lib.check_recovered(content, batches, info, p, evs, power_loss=(mode != 'written'))
    print('contract:', 'holds' if ok else 'VIOLATED: ' + why)
    return 0 if ok else 1
