"""k3check.py -- shared runner for the crash properties C02 C03 C04 C05 (tie K3)."""
import os, json, shutil, time
from concurrent.futures import ThreadPoolExecutor
import vlib, k3lib, k2lib

FOLLOWUP = ['batch p66757031:@7:1,p61:@9:2 0', 'batch p66757032:@7:3 1', 'del 62', 'flush', 'scan -', 'reopen', 'scan -', 'layout']

def followup_expect(content):
    m = dict(content)
    m[b'fup1'] = '@7:1'; m[b'a'] = '@9:2'; m[b'fup2'] = '@7:3'; m.pop(b'b', None)
    return m

def explore_history(args):
    (k3, k2, base, idx, seed, opts, nops, modes, max_points, nested, big, tier) = args
    rng = vlib.Rng(seed)
    work = os.path.join(base, 'h%d' % idx); os.makedirs(work, exist_ok=True)
    ops, batches = k3lib.gen_write_history(rng, nops=nops, big_batches=big)
    rc, out, err, evs, shadow = k3lib.run_traced(k3, os.path.join(work, 'db'), opts, ops, work)
    calls = k2lib.parse_trace(out)
    problems = []; stats = {'points': 0, 'images': 0, 'distinct_images': 0, 'recoveries': 0, 'followups': 0, 'nested': 0,
                            'events': len(evs), 'batches': len(batches), 'lost_tail': 0, 'inflight_present': 0}
    if rc != 0:
        problems.append({'kind': 'harness-crash', 'detail': err[-500:]})
        return {'seed': seed, 'opts': opts, 'ops': ops, 'problems': problems, 'stats': stats}
    info = k3lib.batch_positions(evs, ops, batches, calls)
    points = list(range(1, len(evs) + 1))
    if len(points) > max_points:
        # keep every point around fsync / rename / unlink / create (where the proofs split cases), sample the rest
        hot = {i + d for i, e in enumerate(evs) if e['k'] in ('S', 'D', 'R', 'U', 'C', 'X') for d in (0, 1)}
        hot = [p for p in points if p in hot]
        rest = [p for p in points if p not in hot]
        while len(hot) > max_points: hot.pop(rng.below(len(hot)))
        while len(hot) < max_points and rest: hot.append(rest.pop(rng.below(len(rest))))
        points = sorted(set(hot))
    seen = set()
    for p in points:
        stats['points'] += 1
        for mode in modes:
            img = k3lib.image_at(evs, shadow, p, mode, rng)
            stats['images'] += 1
            key = (k3lib.image_key(img), mode == 'written')
            if key in seen: continue
            seen.add(key); stats['distinct_images'] += 1
            if 'CURRENT' not in img and not any(n.startswith('MANIFEST') for n in img):
                continue     # database never came into existence: nothing to recover (create_if_missing would make a fresh one)
            dst = os.path.join(work, 'img')
            fu = FOLLOWUP if (stats['recoveries'] % 5 == 0) else None
            rc2, rcalls, rops = k3lib.recover_and_read(k2, img, shadow, dst, opts, followup=fu)
            stats['recoveries'] += 1
            where = {'crash_point': p, 'mode': mode, 'event': evs[p - 1] if p - 1 < len(evs) else None}
            if rc2 != 0 or len(rcalls) < 2 or rcalls[0]['ret'] is None:
                problems.append(dict(where, kind='recovery-crash', detail='rc=%d' % rc2)); continue
            if rcalls[0]['ret'].split(' ')[0] != '0':
                problems.append(dict(where, kind='open-failed', detail=rcalls[0]['ret'])); continue
            content, status = k3lib.scan_to_map(rcalls[1]['ret'])
            if status != '0':
                problems.append(dict(where, kind='scan-error', detail=rcalls[1]['ret'][-100:])); continue
            ok, why, present = k3lib.check_recovered(content, batches, info, p, evs, power_loss=(mode != 'written'))
            if not ok:
                problems.append(dict(where, kind='contract', detail=why)); continue
            acked = {i for i, x in enumerate(info) if x['acked'] and x['z'] is not None and x['z'] < p}
            if acked - present: stats['lost_tail'] += 1
            if present - acked: stats['inflight_present'] += 1
            if fu:
                stats['followups'] += 1
                want = followup_expect(content)
                scans = [c for c in rcalls[3:] if c['name'] == 'scan' and c['ret']]
                reop = [c for c in rcalls[3:] if c['name'] == 'reopen']
                if reop and (reop[0]['ret'] or '1').split(' ')[0] != '0':
                    problems.append(dict(where, kind='reopen-after-recovery-failed', detail=reop[0]['ret']))
                elif len(scans) < 2:
                    problems.append(dict(where, kind='followup-crash', detail='follow-up did not complete'))
                else:
                    for j, sc in enumerate(scans[:2]):
                        got, st = k3lib.scan_to_map(sc['ret'])
                        if got != want or st != '0':
                            bad = [k.hex() for k in set(got) | set(want) if got.get(k) != want.get(k)][:5]
                            problems.append(dict(where, kind='followup-contents', detail='%s scan differs at keys %s' % ('pre-reopen' if j == 0 else 'post-reopen', bad)))
                            break
            if len(problems) >= 3: break
        if len(problems) >= 3: break
    shutil.rmtree(work, ignore_errors=True)
    return {'seed': seed, 'opts': opts, 'ops': ops, 'problems': problems, 'stats': stats}

def run_crash(rep, prop, tier, seed, modes, nhist, nops, max_points, opts_list, big=False, known_sig=None):
    out = vlib.scratch_dir()
    lib = vlib.build_lib(out, 'nothread')
    k3 = vlib.build_k3(out, 'nothread', lib=lib); k2 = vlib.build_k2(out, 'nothread', lib=lib)
    rng = vlib.Rng(seed ^ 0xBADC0DE)
    jobs = []
    for i in range(nhist):
        opts = dict(opts_list[i % len(opts_list)])
        jobs.append((k3, k2, out, i, rng.next(), opts, nops, modes, max_points, False, big, tier))
    with ThreadPoolExecutor(vlib.NCPU) as ex:
        results = list(ex.map(explore_history, jobs))
    totals = {}
    reported = 0
    for r in results:
        for k, v in r['stats'].items(): totals[k] = totals.get(k, 0) + v
        rep.evaluated(r['stats']['recoveries'])
        for p in r['problems']:
            sig = known_sig(r, p) if known_sig else None
            if reported < 3 or sig:
                if rep.violation({'kind': 'K3-' + p['kind'], 'problem': p, 'options': r['opts'], 'history': r['ops'],
                                  'history_seed': r['seed']}, signature=sig):
                    reported += 1
    rep.cov['distinct_nontrivial'] = totals.get('distinct_images', 0)
    rep.cov['k3'] = totals
    rep.cov['traces_validated_against_impl'] = len(results)
    if results:
        r0 = results[0]
        rep.sample({'options': r0['opts'], 'ops_head': [o[:120] for o in r0['ops'][:8]], 'stats': r0['stats']})
    return results
